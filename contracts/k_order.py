"""Structural all-paths obligations: "everything that may raise by contract happens before the first mutation of the
target tree" (the atomicity fragments of C10 and C12).

An abstract interpretation of the function's AST with a two-point state {clean, mutated} per path:
  * a MUTATOR is a call `<target>.<m>(...)` with <target> in the function's target names and <m> in MUTATING_METHODS, an
    attribute/subscript store or augmented assignment whose base is a target name, or a call listed as an atomic
    delegate (it raises before mutating or completes) - after it the path is `mutated`;
  * a MAY-RAISE operation is an explicit `raise`, or a call of a function listed in MAY_RAISE (parsers, coercions,
    index fix-ups, validators) - everything else called after the first mutation is in the assumed no-raise list;
  * branches, loops (two iterations), try/except/else/finally are followed path-sensitively; objects created inside
    the function (copies) are fresh, operations on them never count.
Obligation per function: no may-raise operation is reachable in state `mutated`.  Decided on the program text of the
current source, for all inputs."""
import ast

MUTATING_METHODS = {'_put_src', '_set_ast', '_set_field', '_offset', '_offset_lns', '_indent_lns', '_dedent_lns',
                    '_redent_lns', '_put_slice', '_put_one', '_unmake_fst_tree', '_make_fst_tree', '_touchall',
                    '_set_start_pos', '_set_end_pos', '_set_ctx', 'set', '_parenthesize_grouping', '_delimit_node',
                    '_unparenthesize_grouping', '_undelimit_node', '_maybe_add_line_continuations', '_sanitize'}


class Analysis:
    def __init__(self, fnode, targets, may_raise, atomic=(), fresh_ctor=()):
        self.fn = fnode
        self.targets = set(targets)
        self.may_raise = set(may_raise)
        self.atomic = set(atomic)
        self.problems = []
        self.n_mut = 0
        self.n_raise = 0

    # expression effects, in evaluation order (approximation: left-to-right walk of calls)
    def effects(self, node):
        """effects of evaluating `node`, in evaluation order (arguments before the call that takes them)"""
        out = []

        def visit(n):
            if isinstance(n, (ast.FunctionDef, ast.Lambda, ast.ClassDef)):
                return
            for c in ast.iter_child_nodes(n):
                visit(c)
            if not isinstance(n, ast.Call):
                return
            name = recv = None
            if isinstance(n.func, ast.IfExp):   # (f if c else g)(...): either callee
                for br in (n.func.body, n.func.orelse):
                    if isinstance(br, ast.Name) and br.id in self.may_raise:
                        out.append(('raise', br.id, n.lineno))
                return
            if isinstance(n.func, ast.Name):
                name = n.func.id
            elif isinstance(n.func, ast.Attribute):
                name = n.func.attr
                b = n.func.value
                while isinstance(b, (ast.Attribute, ast.Subscript)):
                    b = b.value
                recv = b.id if isinstance(b, ast.Name) else None
            if name in self.atomic and (recv is None or recv in self.targets):
                out.append(('atomic', name, n.lineno))
            elif name in self.may_raise:
                out.append(('raise', name, n.lineno))
            elif name in MUTATING_METHODS and recv in self.targets:
                out.append(('mut', f'{recv}.{name}', n.lineno))
        visit(node)
        return out

    def store_mut(self, tgt):
        for t in (tgt.elts if isinstance(tgt, (ast.Tuple, ast.List)) else [tgt]):
            if isinstance(t, (ast.Attribute, ast.Subscript)):
                b = t
                while isinstance(b, (ast.Attribute, ast.Subscript)):
                    b = b.value
                if isinstance(b, ast.Name) and b.id in self.targets:
                    return f'store {ast.unparse(t)[:40]}'
        return None

    def apply(self, effs, states, lineno):
        """states: set of 'clean'/'mutated' reaching this point; returns states after"""
        out = set()
        for st in states:
            s = st
            for kind, name, ln in effs:
                if kind == 'raise':
                    self.n_raise += 1
                    if s == 'mutated':
                        self.problems.append(f'line {ln}: {name}() may raise after the target tree was already mutated')
                elif kind == 'atomic':
                    if s == 'mutated':
                        self.problems.append(f'line {ln}: {name}() (raises-or-completes delegate) called after a mutation')
                    s = 'mutated'
                    self.n_mut += 1
                elif kind == 'mut':
                    s = 'mutated'
                    self.n_mut += 1
            out.add(s)
        return out

    def block(self, stmts, states):
        """-> (states falling through, states at returns, states at raises)"""
        cur = set(states)
        for s in stmts:
            if not cur:
                break
            cur = self.stmt(s, cur)
        return cur

    def stmt(self, s, states):
        if isinstance(s, ast.Raise):
            self.n_raise += 1
            effs = self.effects(s)
            st = self.apply(effs, states, s.lineno)
            for x in st:
                if x == 'mutated' and not self.in_handler_reraise(s):
                    self.problems.append(f'line {s.lineno}: explicit raise after the target tree was already mutated')
            return set()
        if isinstance(s, ast.Return):
            self.apply(self.effects(s), states, s.lineno)
            return set()
        if isinstance(s, ast.If):
            t = s.test
            if (isinstance(t, ast.UnaryOp) and isinstance(t.op, ast.Not) and isinstance(t.operand, ast.Call)
                    and isinstance(t.operand.func, ast.Name) and t.operand.func.id in self.atomic):
                # `if not delegate(...)`: the delegate's contract - a falsy result means it did nothing
                self.apply(self.effects(t), states, s.lineno)
                return self.block(s.body, set(states)) | self.block(s.orelse, {'mutated'})
            st = self.apply(self.effects(s.test), states, s.lineno)
            return self.block(s.body, st) | self.block(s.orelse, st)
        if isinstance(s, (ast.For, ast.While)):
            head = s.iter if isinstance(s, ast.For) else s.test
            st = self.apply(self.effects(head), states, s.lineno)
            once = self.block(s.body, st)
            twice = self.block(s.body, st | once)
            return st | once | twice | self.block(s.orelse, st | once | twice)
        if isinstance(s, ast.Try):
            body = self.block(s.body, states)
            # an exception may leave the body in any state reached inside it: approximate by entry states + body states
            hstates = set(states) | body
            outs = self.block(s.orelse, body)
            for h in s.handlers:
                outs |= self.block(h.body, hstates)
            if s.finalbody:
                outs = self.block(s.finalbody, outs or hstates)
            return outs
        if isinstance(s, ast.With):
            st = states
            for it in s.items:
                st = self.apply(self.effects(it.context_expr), st, s.lineno)
            return self.block(s.body, st)
        if isinstance(s, (ast.FunctionDef, ast.ClassDef)):
            return states
        st = self.apply(self.effects(s), states, s.lineno)
        if isinstance(s, (ast.Assign, ast.AugAssign, ast.AnnAssign)):
            tgts = s.targets if isinstance(s, ast.Assign) else [s.target]
            for t in tgts:
                m = self.store_mut(t)
                if m:
                    self.n_mut += 1
                    st = {'mutated'}
        return st

    def in_handler_reraise(self, s):
        return s.exc is None   # bare `raise` inside a handler re-raises what a may-raise op already produced

    def run(self):
        self.block(self.fn.body, {'clean'})
        return self.problems


def check(rep, prop, ident, targets, may_raise, atomic=(), min_mut=1, min_raise=1):
    from pyvc import frontend
    loc = frontend.locate(ident)

    class _S:
        name = 'raise-before-mutate order (structural)'
        notes = f'targets={sorted(targets)} may_raise={sorted(may_raise)} atomic={sorted(atomic)}'
    rep.function(loc, _S)
    a = Analysis(loc.node, targets, may_raise, atomic)
    probs = a.run()
    name = f'{prop}.atomic.order.{ident.split(":")[1]}'
    if a.n_mut < min_mut or a.n_raise < min_raise:
        rep.checker_error(f'{name}: analysis saw {a.n_mut} mutators / {a.n_raise} may-raise operations (anchor changed?)')
    rep.other('structural', name, not probs,
              detail='; '.join(probs[:4]) or f'{a.n_raise} may-raise operations all precede the first of {a.n_mut} mutations '
              'on every path', key=name,
              replay={'function': ident, 'problems': probs[:10], 'verifier_output': 'all-paths order analysis'})
    return a


RAW_MAY_RAISE = {'fromsrc', 'parse_match_case', 'parse_ExceptHandler', '_code_as_lines', 'clip_src_loc'}


def c10_order(rep, prop='C10'):
    check(rep, prop, 'fst_raw:_reparse_raw_base', {'self', 'root'}, RAW_MAY_RAISE, set(), 2, 2)
    check(rep, prop, 'fst_raw:_reparse_raw_stmtlike', {'self', 'root', 'stmtlike'}, RAW_MAY_RAISE, {'_reparse_raw_base'}, 2, 2)
    check(rep, prop, 'fst_raw:_reparse_raw', {'self', 'root'}, RAW_MAY_RAISE, {'_reparse_raw_base', '_reparse_raw_stmtlike'},
          1, 1)
    check(rep, prop, 'fst:FST.put_src', {'self', 'root', 'parent'}, RAW_MAY_RAISE, {'_reparse_raw'}, 2, 2)
    check(rep, prop, 'fst:FST.reparse', {'self', 'root'}, RAW_MAY_RAISE | {'_get_src'}, {'put_src'}, 1, 1)
    rep.trusted.append('assumed no-raise after the first mutation: _put_src, _offset, _set_ast, _touchall, '
                       '_unmake_fst_tree, child_from_path, child_path, astfield.set, walk; delegates listed as atomic raise '
                       'before mutating or complete (their own order obligation is checked too)')
