"""Bounded runtime contracts on the real public edit API (native).  One sweep engine, postconditions per property:

 C01  after every successful edit   tree_diff(ast.parse(root.src), root.a) is None      (own comparator)
 C03  every node outside the edited slot is structurally unchanged and in the same order; list edits obey
      field' == old[:i] + new + old[j:]
 C08  replacing a node by its own copy / own source / own pure AST leaves the structure unchanged
 C12  an edit that raises leaves src + tree (with positions) unchanged, the modification registry empty, and the
      next valid edit succeeds and satisfies C01

The scope is: every node of every corpus program x the operation table below (single step, fresh tree per step), plus
seeded random edit sequences.  Bounded; never counted as proved.
"""
import ast
import zlib
import random

from contracts.b_lib import (REFUSALS, tree_diff, c01_violation, dump, node_paths, follow, sdump)

DONORS_EXPR = ['x', 'a + b', 'a, b', '(a, b)', 'a if b else c', 'lambda: z', 'f(\n  1,\n  2)', 'not a', 'a or b',
               'yield q', 'w := 1', '*s', 'a < b', '-a', 'a ** b', 'await a', '[i for i in j]', '(a +\n b)',
               "'str'", '1', 'a.b[c]', '{**d}', 'é + 1  # c']
DONORS_STMT = ['pass', 'x = 1', 'if q:\n    r\nelse:\n    s', 'def h(): pass', 'a; b', 'x = [\n  1,\n]  # c',
               'for i in j:\n    break', '"""doc"""', 'return', 'class K:\n    y = 2']
DONORS_PAT = ['_', 'a', '1', 'a | b', '[a, b]', 'a, b', 'C(x=1)', '{1: a}', 'a as b', '*r', 'None']


def category(f):
    a = f.a
    if isinstance(a, ast.stmt):
        return 'stmt'
    if isinstance(a, ast.expr):
        return 'expr'
    if isinstance(a, ast.pattern):
        return 'pattern'
    return 'other'


from contracts.b_edit_slots import slot_desc, under_fstring, _nosimple  # noqa: E402


def placeholder_dump(tree, path):
    """dump (no positions) of the tree with the subtree at `path` replaced by a marker: everything else"""
    t = tree
    parent = None
    for name, idx in path:
        parent = t
        t = getattr(t, name)
        if idx is not None:
            t = t[idx]
    if parent is None:
        return 'ROOT'
    name, idx = path[-1]
    marker = ast.Name(id='__PLACEHOLDER__', ctx=ast.Load())
    if idx is None:
        old = getattr(parent, name)
        setattr(parent, name, marker)
        try:
            return sdump(tree)
        finally:
            setattr(parent, name, old)
    lst = getattr(parent, name)
    old = lst[idx]
    lst[idx] = marker
    try:
        return sdump(tree)
    finally:
        lst[idx] = old


# sequences put as slices: the first is indented inconsistently (one line less than what re-indentation removes)
ML_SEQ_DONORS = ['[\n        c,\n  d, e,\n    f\n]', '[\n        c,  # one\n        d(1,\n   2), e,\n            f\n]',
                 '(\n            c,\n     d(1,\n  2), e,\n        f\n)']


def _edump(e):
    return sdump(e) if isinstance(e, ast.AST) else repr(e)


class Sweep:
    def __init__(self, name, src, payload):
        from fst import FST
        import fst.fst_core as core
        self.FST = FST
        self.core = core
        self.name = name
        self.src = src
        self.props = set(payload['props'])
        self.payload = payload
        self.ev = 0
        self.distinct = set()
        self.failures = []
        self.samples = []
        self.counts = {'ok': 0, 'refused': 0}

    def fresh(self):
        return self.FST(self.src, 'exec')

    def fail(self, prop, key, what, **kw):
        if prop not in self.props:
            return
        from contracts.b_lib import room
        ok, kn = room(self.failures, f'{prop}.B.{key}', 12)
        if ok:
            kw.pop('program', None)
            self.failures.append(dict(key=f'{prop}.B.{key}', what=what, program=self.name, replayed=True, _known=kn, **kw))

    def pre_edit(self, root):
        if 'C02' in self.props and self.payload.get('prepass', True):
            from contracts import b_query
            b_query.prepass(root)
        self._olds = list(root.walk(True)) if 'C15' in self.props else None

    def post_edit(self, root, key, what_op, v=None):
        """C02 postcondition after a successful edit that satisfied C01 (v is None)"""
        olds, self._olds = getattr(self, '_olds', None), None
        if olds is not None:
            # C15 relies on it: a node the edit took out of the tree is unmade (its AST<->FST link is cleared), a node
            # that is still linked is still part of the tree
            try:
                live = {id(f) for f in root.walk(True)}
            except Exception:
                live = None
            if live is not None:
                bad = [f for f in olds if f.a is not None and id(f) not in live and f.root is root]
                if bad:
                    self.fail('C15', key + ':detached_alive',
                              f'after {what_op}: {len(bad)} node(s) taken out of the tree are still linked (alive), e.g. '
                              f'{bad[0].a.__class__.__name__} - a running walk would yield them', src_after=root.src[:200])
        if 'C02' in self.props:   # (when the source does not parse there is no fresh tree: compare() returns None)
            from contracts import b_query
            q = b_query.compare(root)
            if q:
                self.fail('C02', key, f'after {what_op}: {q}', src_after=root.src[:300])

    # one operation on a fresh tree ----------------------------------------------------------------------------------
    def step(self, path, opname, fn, expect_same_structure=False, law=None, root=None, seq=None):
        """fn(root, node) performs the edit. Returns root or None."""
        root = root or self.fresh()
        node = follow(root, path)
        if not node:
            return None
        self.ev += 1
        src0 = root.src
        d0 = dump(root.a)
        slot = slot_desc(root.a, path)
        ph0 = (placeholder_dump(root.a, path) if 'C03' in self.props and law == 'others'
               and not under_fstring(root.a, path) else None)
        cls0 = node.a.__class__
        s0 = sdump(root.a) if expect_same_structure else None
        desc = {'program': self.name, 'path': [list(p) for p in path], 'op': opname, 'seq': seq, 'slot': slot}
        self.pre_edit(root)
        try:
            fn(root, node)
        except Exception as e:
            self.counts['refused'] += 1
            self.distinct.add(('refused', path, opname))
            if 'C12' in self.props:
                self.check_c12(root, src0, d0, e, desc)
            return None
        self.counts['ok'] += 1
        self.distinct.add(('ok', path, opname))
        if len(self.samples) < 2:
            self.samples.append(dict(desc, result='ok', new_src_head=root.src[:80]))
        v = c01_violation(root)
        if v:
            self.fail('C01', f'{opname.split(chr(40))[0]}@{slot}:{self.name}:{path}:{opname}', f'after {opname}: {v}', **desc, src_after=root.src[:400])
        self.post_edit(root, f'{opname.split(chr(40))[0]}@{slot}:{self.name}:{path}:{opname}', opname, v)
        if expect_same_structure and v:
            self.fail('C08', f'{opname.split(chr(40))[0]}@{slot}:{self.name}:{path}:{opname}:c01',
                      f'{opname} with the node\'s own code: the tree no longer equals what its source denotes: {v}',
                      **desc, src_after=root.src[:400])
        if expect_same_structure and not v and sdump(root.a) != s0:
            self.fail('C08', f'{opname.split(chr(40))[0]}@{slot}:{self.name}:{path}:{opname}', f'{opname} with the node\'s own code changed the structure',
                      **desc, src_after=root.src[:400])
        if ph0 is not None and not v:
            try:
                ph1 = placeholder_dump(root.a, path)
            except Exception:
                ph1 = None
            if ph1 is not None and _nosimple(ph1) != _nosimple(ph0):
                self.fail('C03', f'{opname.split(chr(40))[0]}@{slot}:{self.name}:{path}:{opname}', f'{opname} changed nodes outside the edited slot',
                          **desc, src_after=root.src[:400])
        return root

    def check_c12(self, root, src0, d0, exc, desc):
        key = f'{desc["op"].split(chr(40))[0]}@{desc.get("slot", "")}:{self.name}:{tuple(map(tuple, desc["path"]))}:{desc["op"]}'
        if root.src != src0:
            self.fail('C12', key + '.src', f'edit raised {exc!r} but the source changed', **desc,
                      src_after=root.src[:400])
            return
        if dump(root.a) != d0:
            self.fail('C12', key + '.tree', f'edit raised {exc!r} but the tree (structure/positions) changed', **desc)
            return
        if self.core._MODIFYING:
            self.fail('C12', key + '.lock', f'edit raised {exc!r} and left a modification lock behind', **desc)
            self.core._MODIFYING.clear()
            return
        try:
            root.append('pass')
        except Exception as e2:
            self.fail('C12', key + '.next', f'after the failed edit ({exc!r}) the next valid edit raised {e2!r}', **desc)
            return
        v = c01_violation(root)
        if v:
            self.fail('C12', key + '.next_c01', f'after the failed edit the next valid edit broke C01: {v}', **desc)

    # the operation table --------------------------------------------------------------------------------------------
    def sweep(self):
        root = self.fresh()
        paths = [(p, category(f), f.a.__class__.__name__) for p, f in node_paths(root) if p]
        quick = self.payload.get('tier', 'quick') == 'quick'
        rnd = random.Random(zlib.crc32(f'{self.payload.get("seed", 0)}:{self.name}'.encode()))
        ops = self.payload.get('ops', ['self', 'remove', 'donor', 'slice'])
        stride = self.payload.get('stride', 1) if quick else 1
        if stride > 1:
            off = rnd.randrange(stride)
            paths = [p for k, p in enumerate(paths) if k % stride == off]
        for path, cat, cls in paths:
            if 'self' in ops:
                self.step(path, 'replace(own copy)', lambda r, n: n.replace(n.copy()), True, 'others')
                self.step(path, 'replace(own src)', lambda r, n: n.replace(n.copy().src), True, 'others')
                self.step(path, 'replace(own AST)', lambda r, n: n.replace(n.copy_ast()), True, 'others')
            if 'remove' in ops:
                self.step(path, 'remove()', lambda r, n: n.remove())
                self.step(path, 'cut()', lambda r, n: n.cut())
            if 'donor' in ops and cat in ('expr', 'stmt', 'pattern'):
                donors = {'expr': DONORS_EXPR, 'stmt': DONORS_STMT, 'pattern': DONORS_PAT}[cat]
                dn = self.payload.get('donor_n', 8)
                if quick and len(donors) > dn:
                    donors = rnd.sample(donors, dn)
                for d in donors:
                    self.step(path, f'replace({d!r})', lambda r, n, d=d: n.replace(d), False, 'others')
                if cat == 'expr' and not quick:
                    for d in DONORS_EXPR[:6]:
                        self.step(path, f'replace(FST {d!r})', lambda r, n, d=d: n.replace(self.FST(d, 'expr')),
                                  False, 'others')
        if 'copy' in ops:
            from contracts import b_edit_ext
            for path, cat, cls in paths:
                b_edit_ext.copy_step(self, path, cat)
            b_edit_ext.copy_slices(self, root, quick, rnd)
        if 'accessors' in ops:
            from contracts import b_edit_ext
            b_edit_ext.accessor_steps(self, root, quick, rnd)
        if 'views' in ops:
            from contracts import b_edit_views
            b_edit_views.view_steps(self, root, quick, rnd)
        if 'optional' in ops:
            from contracts import b_edit_views
            b_edit_views.optional_steps(self, root, quick, rnd)
        if 'move' in ops:
            from contracts import b_edit_ext
            b_edit_ext.move_steps(self, paths, quick, rnd)
        if 'pars' in ops:
            from contracts import b_edit_ext
            b_edit_ext.pars_steps(self, paths, quick, rnd)
        if 'badopts' in ops:
            from contracts import b_edit_ext
            b_edit_ext.badopt_steps(self, paths, quick, rnd)
        if 'refusals' in ops:
            from contracts import b_edit_ext
            b_edit_ext.refusal_steps(self, paths, quick, rnd)
        if 'slice' in ops:
            self.sweep_slices(root, quick, rnd)
        if 'seq' in ops:
            self.sequences(paths, rnd, quick)

    def list_fields(self, root):
        out = []
        for p, f in node_paths(root):
            for fld in f.a._fields:
                v = getattr(f.a, fld, None)
                if isinstance(v, list) and v and all(isinstance(e, ast.AST) or e is None for e in v):
                    out.append((p, fld, len(v)))
                elif isinstance(v, list) and v and fld == 'names' and f.a.__class__.__name__ in ('Global', 'Nonlocal'):
                    out.append((p, fld, len(v)))     # identifier lists are sliceable too
        return out

    def sweep_slices(self, root, quick, rnd):
        for path, fld, n in self.list_fields(root):
            idxs = [(i, j) for i in range(n + 1) for j in range(i, n + 1)]
            if len(idxs) > (6 if quick else 15):
                idxs = rnd.sample(idxs, 6 if quick else 15)
            for i, j in idxs:
                self.slice_step(path, fld, n, i, j, 'delete')
                self.slice_step(path, fld, n, i, j, 'self')
                if j > i:
                    self.slice_step(path, fld, n, i, j, 'cut')
                    if 'C08' in self.props or 'C01' in self.props:
                        self.slice_step(path, fld, n, i, j, 'cut_putback')
            for i in sorted({0, n // 2, n}):
                self.slice_step(path, fld, n, i, i, 'insert_copy_first')
            # multi-line donors whose own indentation is irregular (re-indentation of the put code)
            ncls = (follow(root, path) if path else root).a.__class__.__name__
            if fld in ('elts', 'args') or (fld == 'targets' and ncls == 'Delete'):
                for i in sorted({0, n}):
                    for d in range(len(ML_SEQ_DONORS)):
                        self.slice_step(path, fld, n, i, i, f'donor_ml{d}')

    def slice_step(self, path, fld, n, i, j, kind):
        def law(root0, node0):
            pass
        root = self.fresh()
        try:
            node = follow(root, path) if path else root
        except Exception:
            return
        self.ev += 1
        src0, d0 = root.src, dump(root.a)
        old = [_edump(e) for e in getattr(node.a, fld)]
        cls0 = node.a.__class__
        slot = f'{cls0.__name__}.{fld}'
        desc = {'program': self.name, 'path': [list(p) for p in path], 'op': f'{kind} {fld}[{i}:{j}]', 'seq': None,
                'slot': slot}
        self.pre_edit(root)
        try:
            if kind == 'delete':
                node.put_slice(None, i, j, fld)
                exp = old[:i] + old[j:]
            elif kind == 'self':
                piece = node.get_slice(i, j, fld)
                new = None
                node.put_slice(piece, i, j, fld)
                exp = old
            elif kind == 'cut':
                node.get_slice(i, j, fld, cut=True)
                exp = old[:i] + old[j:]
            elif kind == 'cut_putback':
                piece = node.get_slice(i, j, fld, cut=True)
                node2_ = follow(root, path) if path else root
                if not node2_ or node2_ is not node or node2_.a.__class__ is not cls0 or \
                        len(getattr(node2_.a, fld)) != n - (j - i):
                    return      # the cut normalised the container away (into its only element): nothing to put back into
                node2_.put_slice(piece, i, i, fld)
                exp = old
            elif kind.startswith('donor_ml'):
                code = ML_SEQ_DONORS[int(kind[8:])]
                piece = self.FST(code)
                new_elems = [sdump(e) for e in ast.parse(code, mode='eval').body.elts]
                node.put_slice(piece, i, i, fld)
                exp = old[:i] + new_elems + old[i:]
            else:
                piece = node.get_slice(0, 1, fld)
                node.put_slice(piece, i, i, fld)
                exp = old[:i] + old[0:1] + old[i:]
        except Exception as e:
            self.counts['refused'] += 1
            self.distinct.add(('refused', path, fld, i, j, kind))
            if 'C12' in self.props:
                self.check_c12(root, src0, d0, e, desc)
            return
        self.counts['ok'] += 1
        self.distinct.add(('ok', path, fld, i, j, kind))
        v = c01_violation(root)
        key = f'slice@{slot}:{self.name}:{path}:{kind}[{i}:{j}]'
        if v:
            self.fail('C01', key, f'after {desc["op"]}: {v}', **desc, src_after=root.src[:400])
            if kind in ('self', 'cut_putback'):
                self.fail('C08', key + ':c01', f'{desc["op"]} (a slice put back where it was taken from): the tree no longer '
                          f'equals what its source denotes: {v}', **desc, src_after=root.src[:400])
            self.post_edit(root, key, desc['op'], v)
            return
        self.post_edit(root, key, desc['op'])
        if 'C03' in self.props or 'C08' in self.props:
            try:
                node2 = follow(root, path) if path else root
                if node2.a.__class__ is not cls0:
                    return  # the container was normalised into another node kind - not judged here
                got = [_edump(e) for e in getattr(node2.a, fld)]
            except Exception:
                return  # the container itself was normalised away (e.g. emptied block) - not judged here
            norm = lambda xs: [x.replace('Store()', 'Load()').replace('Del()', 'Load()') if x else x for x in xs]
            if norm(got) != norm(exp):
                self.fail('C03' if kind not in ('self', 'cut_putback') else 'C08', key,
                          f'{desc["op"]}: field is not old[:i] + new + old[j:] (got {len(got)} elements, expected '
                          f'{len(exp)})', **desc, src_after=root.src[:400])

    def sequences(self, paths, rnd, quick):
        nseq = 25 if quick else 120
        maxlen = 3 if quick else 6
        for s in range(nseq):
            root = self.fresh()
            for k in range(maxlen):
                cur = [(p, category(f)) for p, f in node_paths(root) if p]
                if not cur:
                    break
                path, cat = rnd.choice(cur)
                donors = {'expr': DONORS_EXPR, 'stmt': DONORS_STMT, 'pattern': DONORS_PAT}.get(cat)
                choice = rnd.random()
                if donors and choice < 0.6:
                    d = rnd.choice(donors)
                    r = self.step(path, f'replace({d!r})', lambda r_, n, d=d: n.replace(d), root=root, seq=(s, k))
                elif choice < 0.8:
                    r = self.step(path, 'remove()', lambda r_, n: n.remove(), root=root, seq=(s, k))
                else:
                    r = self.step(path, 'replace(own copy)', lambda r_, n: n.replace(n.copy()), root=root, seq=(s, k))
                if r is None:
                    # refused edits leave the tree usable (C12); continue the sequence on the same tree if intact
                    if c01_violation(root):
                        break


def work(name, src, payload):
    s = Sweep(name, src, payload)
    s.sweep()
    return {'evaluations': s.ev, 'distinct': list(s.distinct), 'failures': s.failures, 'samples': s.samples,
            'counts': s.counts}


def main(payload):
    from contracts import b_lib
    progs = b_lib.load_corpus(payload.get('tier', 'quick'), payload.get('programs'))
    res = b_lib.run_parallel('b_edit', 'work', progs, payload)
    props = ','.join(payload['props'])
    return b_lib.merge(
        f'{props}.B.edit_sweep', res,
        rule='every node of every corpus program x operation table ' + str(payload.get('ops')) +
             ' (single step on a fresh tree; donors = fixed source snippets per category; slices = (i, j) windows of '
             'every list field) plus seeded random edit sequences; distinct = distinct (program, path, operation, '
             'outcome) tuples; all are non-trivial (each either changes the tree or is refused)',
        scope=f'{len(progs)} corpus programs; quick samples 8 donors and 6 windows per target, thorough all')


def replay(payload):
    """re-run one recorded failing operation natively"""
    from contracts import b_lib
    rep = payload.get('replay') or payload
    progs = dict(b_lib.load_corpus())
    name = rep.get('program')
    if name not in progs:
        return {'reproduced': False, 'note': 'program not in corpus'}
    prop = rep['key'].split('.')[0]
    ops = ['self', 'remove', 'donor', 'slice', 'copy', 'accessors', 'views', 'optional', 'move', 'pars', 'badopts', 'refusals', 'seq']
    r = work(name, progs[name], {'props': [prop], 'ops': ops, 'tier': 'thorough', 'seed': rep.get('seed', 0)})
    hit = [f for f in r['failures'] if f['key'] == rep['key']]
    return {'reproduced': bool(hit), 'failure': hit[:1]}
