"""Native (under /venv/bin/python) library for the bounded stand-ins: corpus, independent oracles, target enumeration,
parallel driver.  Everything here is labelled *bounded* in evidence and never counted as proved."""
import ast
import zlib
import glob
import io
import multiprocessing
import os
import random
import sys
import tokenize
import traceback

VERIF = os.path.dirname(os.path.dirname(os.path.abspath(__file__)))

POS = ('lineno', 'col_offset', 'end_lineno', 'end_col_offset')
REFUSALS = (ValueError, SyntaxError, NotImplementedError, IndexError, LookupError, TypeError)
# "refused" = the library said no in a controlled way; anything else raised from an edit is reported by C12 only


def load_corpus(tier='quick', names=None):
    out = []
    for p in sorted(glob.glob(os.path.join(VERIF, 'corpus', '*.py'))):
        n = os.path.basename(p)[:-3]
        if names and n not in names:
            continue
        with open(p, encoding='utf-8') as f:
            out.append((n, f.read().rstrip('\n')))
    return out


# ---------------------------------------------------------------------------------------------------------------------
# independent tree comparator (does not use FST.verify / compare_asts)

def tree_diff(a, b, path='root', pos=True):
    """first structural/positional difference between two ast trees, or None"""
    if type(a) is not type(b):
        return f'{path}: type {type(a).__name__} != {type(b).__name__}'
    if isinstance(a, ast.AST):
        for f in a._fields:
            if not hasattr(a, f) and not hasattr(b, f):
                continue
            va, vb = getattr(a, f, None), getattr(b, f, None)
            d = tree_diff(va, vb, f'{path}.{f}', pos)
            if d:
                return d
        if pos:
            for p in POS:
                pa, pb = getattr(a, p, None), getattr(b, p, None)
                if pa != pb:
                    return f'{path}: {type(a).__name__}.{p} {pa} != {pb}'
        return None
    if isinstance(a, list):
        if len(a) != len(b):
            return f'{path}: list length {len(a)} != {len(b)}'
        for i, (x, y) in enumerate(zip(a, b)):
            d = tree_diff(x, y, f'{path}[{i}]', pos)
            if d:
                return d
        return None
    if a != b or type(a) is not type(b):
        return f'{path}: value {a!r} != {b!r}'
    return None


def parse_like(root):
    """parse root.src with Python's parser in the mode matching the root's kind (Module roots only are judged)"""
    return ast.parse(root.src)


def c01_violation(root):
    """None if ast.parse(root.src) equals the live tree (types, fields, contexts, positions); else description"""
    try:
        fresh = ast.parse(root.src)
    except SyntaxError as e:
        return f'source no longer parses: {e.msg} at line {e.lineno}'
    return tree_diff(fresh, root.a)


def dump(a, attrs=True):
    return ast.dump(a, include_attributes=attrs)


def sdump(a):
    """structure dump, positions ignored, docstring-like strings (multi-line str Constants that are the whole value
    of an Expr statement) compared up to the documented re-indentation of their continuation lines"""
    if a is None:
        return None
    patched = []
    for n in ast.walk(a):
        if isinstance(n, ast.Expr) and isinstance(n.value, ast.Constant) and isinstance(n.value.value, str) \
                and '\n' in n.value.value:
            patched.append((n.value, n.value.value))
            n.value.value = '\n'.join(x.lstrip() for x in n.value.value.split('\n'))
    try:
        return ast.dump(a)
    finally:
        for c, v in patched:
            c.value = v


def node_paths(root):
    """[(path, node)] for every node, in walk order; path is a tuple of (field, idx)"""
    out = []
    for f in root.walk(True):
        try:
            p = root.child_path(f)
        except Exception:
            continue
        out.append((tuple((x.name, x.idx) for x in p), f))
    return out


def follow(root, path):
    from fst.common import astfield
    return root.child_from_path([astfield(n, i) for n, i in path])


def tokens(src):
    try:
        return [(t.type, t.string) for t in tokenize.generate_tokens(io.StringIO(src + '\n').readline)
                if t.type not in (tokenize.NL, tokenize.NEWLINE, tokenize.INDENT, tokenize.DEDENT, tokenize.ENDMARKER)]
    except (tokenize.TokenError, IndentationError, SyntaxError):
        return None


def comments(src):
    t = tokens(src)
    return None if t is None else [s for ty, s in t if ty == tokenize.COMMENT]


# ---------------------------------------------------------------------------------------------------------------------
# parallel driver: work(program_name, src, payload) -> dict(evaluations, distinct, failures[], samples[], counts{})

def _worker(args):
    modname, fn, name, src, payload = args
    import importlib
    try:
        m = importlib.import_module('contracts.' + modname)
        import fst
        if payload.get('norm', True):
            fst.FST.set_options(norm=True)
        if payload.get('defaults'):      # thread-default option values for the whole sweep (e.g. docstr='strict')
            fst.FST.set_options(**payload['defaults'])
        random.seed(zlib.crc32(f'{payload.get("seed", 0)}:{name}'.encode()))
        return name, getattr(m, fn)(name, src, payload)
    except Exception as e:
        return name, {'evaluations': 0, 'distinct': [], 'failures': [], 'samples': [], 'counts': {},
                      'harness_error': f'{name}: {e!r}\n{traceback.format_exc()[-1500:]}'}


def run_parallel(modname, fn, programs, payload, jobs=None):
    jobs = jobs or min(16, os.cpu_count() or 1)
    work = [(modname, fn, n, s, payload) for n, s in programs]
    if jobs > 1 and len(work) > 1:
        ctx = multiprocessing.get_context('fork')
        with ctx.Pool(min(jobs, len(work))) as pool:
            res = pool.map(_worker, work, chunksize=1)
    else:
        res = [_worker(w) for w in work]
    return res


_KNOWN = None


def known_index(key):
    """index (1-based) of the first finding listed as known in /verif/known_findings.json that `key` matches, else 0
    (read-only; used only to budget recorded failures per listed finding, so that a listed finding can neither use up the
    budget of new failures nor that of another listed finding)"""
    global _KNOWN
    if _KNOWN is None:
        import json
        import re
        _KNOWN = []
        try:
            with open(os.path.join(VERIF, 'known_findings.json')) as f:
                for k in json.load(f).get('findings', []):
                    if k.get('status') != 'known':
                        continue
                    if k.get('keys'):
                        ks = frozenset(k['keys'])
                        _KNOWN.append(ks.__contains__)
                    elif k.get('key_re'):
                        _KNOWN.append(lambda key, r=re.compile(k['key_re']): r.search(key) is not None)
                    elif k.get('key'):
                        _KNOWN.append(lambda key, pre=k['key']: key.startswith(pre))
        except OSError:
            pass
    for i, m in enumerate(_KNOWN):
        if m(key):
            return i + 1
    return 0


def is_known(key):
    return bool(known_index(key))


def room(failures, key, new_cap, known_cap=6):
    """budget test for one more recorded failure: new failures share one budget, every listed finding has its own"""
    kn = known_index(key)
    n = sum(1 for f in failures if (f.get('_known') or 0) == kn)
    return (n < (known_cap if kn else new_cap)), kn

def merge(name, res, rule, scope, exhaustive=False, max_fail=400):
    ev = 0
    distinct = set()
    failures, samples, counts, errors = [], [], {}, []
    for prog, r in res:
        ev += r['evaluations']
        distinct.update((prog,) + tuple(d) if isinstance(d, (tuple, list)) else (prog, d) for d in r['distinct'])
        for f in r['failures']:
            ok, kn = room(failures, f['key'], max_fail, 60)
            if ok:
                f.setdefault('program', prog)
                failures.append(dict(f, _known=kn))
        samples.extend(r['samples'][:1])
        for k, v in r.get('counts', {}).items():
            counts[k] = counts.get(k, 0) + v
        if r.get('harness_error'):
            errors.append(r['harness_error'])
    failures = [{k: v for k, v in f.items() if k != '_known'} for f in failures]
    return {'name': name, 'evaluations': ev, 'distinct_nontrivial': len(distinct), 'rule': rule, 'scope': scope,
            'samples': samples[:6], 'exhaustive': exhaustive, 'counts': counts, 'failures': failures,
            'harness_errors': errors, 'programs': len(res)}
