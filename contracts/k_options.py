"""Contracts for the option store (C20): fst_options:check_options, set_options, options, get_option, get_options.

The thread-local store `_OPTIONS.__dict__` is a dict D with abstract keys and values (z3 arrays dom/val); option
mappings passed by callers are arbitrary such dicts.  The 19 per-option checkers are uninterpreted verdicts
known_<table>(key) / bad(key, value).  Loops over `options.items()` and the dict comprehension in set_options are
handled by the for-all rule (arbitrary element, no loop-carried state; see pyvc.interp.forall_loop).
"""
from pyvc.logic import and_, or_, not_, implies, eq, truth, ite


def specs(prop='C20'):
    import z3
    from pyvc.contract import Fragment
    from pyvc.interp import Interp, IFunc, SObj, Env, PyRaise
    from pyvc import values, sym
    from pyvc.values import SDict, SVal, key_id
    from pyvc.sym import _wrap_bool, cur, SInt

    I, B = z3.IntSort(), z3.BoolSort()
    KNOWN = {'all': z3.Function('known_all', I, B), 'global': z3.Function('known_global', I, B)}
    BAD = z3.Function('bad_value', I, I, B)
    MARK = '__options_checked'

    class Checker:
        def __init__(self, table):
            self.table = table

        def __call__(self, option, value):
            b = _wrap_bool(BAD(sym._z(key_id(option)), values._valz(value)))
            return 'a valid value' if truth(b) else None

    class CheckTable:
        def __init__(self, table):
            self.table = table

        def get(self, k, default=None):
            if truth(_wrap_bool(KNOWN[self.table](sym._z(key_id(k))))):
                return Checker(self.table)
            return default

    def ok(table, d, k):
        kz = sym._z(key_id(k))
        return and_(_wrap_bool(KNOWN[table](kz)), not_(_wrap_bool(BAD(kz, z3.Select(d.val, kz)))))

    def base_env(D):
        sentinel = object()
        OPT = SObj('_OPTIONS', {})
        OPT._set('__dict__', D, count=False)
        return {'_ALL_OPTION_CHECK_FUNCS': CheckTable('all'), '_GLOBAL_OPTION_CHECK_FUNCS': CheckTable('global'),
                '_OPTIONS': OPT, '_SENTINEL': sentinel, 'MappingProxyType': lambda x: x}

    def call_env(it, loc, name, **vars_):
        f = IFunc(it, loc.node, None, name)
        env = Env()
        env.vars.update(vars_)
        it.func_stack.append(f)
        try:
            from pyvc.interp import _Return
            try:
                it.exec_block(loc.node.body, env)
            except _Return as r:
                return r.value
            return None
        finally:
            it.func_stack.pop()

    # ---------------------------------------------------------------------------------------------------------------
    def run_check_options(ctx, case, loc, pre, label):
        D = SDict('D')
        opts = SDict('options')
        ctx.notes['skolem_keys'] = [ctx.int('sk_key')]
        table = 'all' if case['all'] else 'global'
        it = Interp(base_env(D))
        dv, ov = D.version, opts.version
        try:
            r = call_env(it, loc, 'check_options', options=opts, all=case['all'], mark_checked=case['mark_checked'])
        except PyRaise as pr:
            ctx.notes['outcome'] = f'raise {pr.cls.__name__}'
            ctx.prove(f'{pre}.raises.ValueError_only[{label}]', pr.cls is ValueError)
            fc = ctx.notes.get('forall_current')
            ctx.prove(f'{pre}.raises.witness[{label}]', and_(opts.has(fc[1]), not_(ok(table, opts, fc[1])))
                      if fc else False,
                      info='a raise must come with a key of options that is unknown in the selected table or bad')
            ctx.prove(f'{pre}.raises.not_bypassed[{label}]', not_(opts.has(MARK)))
            ctx.prove(f'{pre}.frame.no_write[{label}]', D.version == dv and opts.version == ov)
            return
        ctx.notes['outcome'] = 'return'
        ctx.prove(f'{pre}.frame.no_write[{label}]', D.version == dv and opts.version == ov)
        marked = opts.has(MARK)
        fk = ctx.notes.get('forall_keys', [])
        if fk:   # the loop ran for an arbitrary key: every key was accepted
            k = fk[-1][1]
            ctx.prove(f'{pre}.accepts.all_keys_ok[{label}]', ok(table, opts, k))
            sk = ctx.notes['skolem_keys'][0]
            ctx.prove(f'{pre}.accepts.all_keys_ok.skolem[{label}]', implies(opts.has(sk), ok(table, opts, sk)))
            ctx.prove(f'{pre}.accepts.unmarked[{label}]', not_(marked))
        else:    # no check happened: only allowed for an empty or already-marked mapping
            ctx.prove(f'{pre}.skip.only_empty_or_marked[{label}]', or_(getattr(opts, '_empty', False), marked))
        if case['mark_checked'] and fk:
            k2 = ctx.int(ctx.fresh_name('sk'))
            good = isinstance(r, SDict) and r is not opts
            ctx.prove(f'{pre}.marked_copy.fresh[{label}]', good)
            if good:
                kz = k2.e
                claim = _wrap_bool(z3.And(
                    z3.Select(r.dom, kz) == z3.Or(z3.Select(opts.dom, kz), kz == key_id(MARK).e),
                    z3.Implies(z3.Select(opts.dom, kz), z3.Select(r.val, kz) == z3.Select(opts.val, kz))))
                ctx.prove(f'{pre}.marked_copy.same_items_plus_marker[{label}]', claim)
        else:
            ctx.prove(f'{pre}.returns_same_mapping[{label}]', r is opts)

    # ---------------------------------------------------------------------------------------------------------------
    def check_options_stub(calls, table_expected):
        """assumed contract of check_options (proved above): raises ValueError without writing, or returns its argument
        and then every key is known in the table and not bad - unless the mapping is empty or carries the marker"""
        def stub(options, all=True, mark_checked=False):
            calls.append((options, all, mark_checked))
            ctx = cur()
            if truth(ctx.bool(ctx.fresh_name('check_options_raises'))):
                raise PyRaise(ValueError('invalid option'))
            table = 'all' if all else 'global'
            for k in ctx.notes.get('skolem_keys', []):
                if isinstance(k, SInt):
                    ctx.assume(implies(and_(options.has(k), not_(options.has(MARK))), ok(table, options, k)))
            return options
        return stub

    def run_set_options(ctx, case, loc, pre, label):
        D = SDict('D')
        D0 = D.snapshot()
        opts = SDict('options')
        ks = ctx.int('sk_key')
        ctx.notes['skolem_keys'] = [ks, MARK]
        calls = []
        g = base_env(D)
        g['check_options'] = check_options_stub(calls, 'global')
        it = Interp(g)
        dv, ov = D.version, opts.version
        try:
            r = call_env(it, loc, 'set_options', options=opts)
        except PyRaise as pr:
            ctx.notes['outcome'] = f'raise {pr.cls.__name__}'
            ctx.prove(f'{pre}.atomic.no_write_on_raise[{label}]', D.version == dv and opts.version == ov)
            ctx.prove(f'{pre}.atomic.store_unchanged_on_raise[{label}]', D.same_as(D0, ks))
            ctx.prove(f'{pre}.raises.ValueError_only[{label}]', pr.cls is ValueError)
            return
        ctx.notes['outcome'] = 'return'
        ctx.prove(f'{pre}.validates_first[{label}]', len(calls) == 1 and calls[0][0] is opts and calls[0][1] is False,
                  info='check_options(options, False): only global options, before anything else')
        kz = ks.e
        upd = _wrap_bool(z3.And(
            z3.Select(D.dom, kz) == z3.Or(z3.Select(D0.dom, kz), z3.Select(opts.dom, kz)),
            z3.Implies(z3.Select(opts.dom, kz), z3.Select(D.val, kz) == z3.Select(opts.val, kz)),
            z3.Implies(z3.Not(z3.Select(opts.dom, kz)), z3.Select(D.val, kz) == z3.Select(D0.val, kz))))
        ctx.prove(f'{pre}.post.store_is_old_updated_with_options[{label}]', upd)
        good = isinstance(r, SDict)
        ctx.prove(f'{pre}.post.returns_dict[{label}]', good)
        if good:
            old = _wrap_bool(z3.And(z3.Select(r.dom, kz) == z3.Select(opts.dom, kz),
                                    z3.Implies(z3.Select(opts.dom, kz), z3.Select(r.val, kz) == z3.Select(D0.val, kz))))
            ctx.prove(f'{pre}.post.returns_old_values_of_changed_keys[{label}]', old)
        # rejected before anything is changed: a normal return means every key was an existing global option with an
        # acceptable value (for the arbitrary key ks; the marker key itself is not a key of the store)
        ctx.prove(f'{pre}.accepts.only_existing_keys[{label}]', implies(opts.has(ks), D0.has(ks)))
        ctx.prove(f'{pre}.accepts.only_valid[{label}]',
                  implies(and_(opts.has(ks), not_(opts.has(MARK))), ok('global', opts, ks)))
        ctx.prove(f'{pre}.accepts.marker_cannot_bypass[{label}]', implies(opts.has(MARK), D0.has(MARK)),
                  info='a marked mapping is only accepted if the marker itself is a key of the store (it never is)')
        ctx.prove(f'{pre}.frame.options_not_written[{label}]', opts.version == ov)

    # ---------------------------------------------------------------------------------------------------------------
    def run_options_cm(ctx, case, loc, pre, label):
        D = SDict('D')
        D0 = D.snapshot()
        opts = SDict('options')
        ks = ctx.int('sk_key')
        ctx.notes['skolem_keys'] = [ks]
        state = {}

        def set_options_stub(**kw):
            """assumed contract of set_options (proved above)"""
            o = kw.pop('__sdict__', None)
            state['called_with'] = (o, kw)
            if truth(ctx.bool(ctx.fresh_name('set_options_raises'))):
                raise PyRaise(ValueError('invalid option'))
            for k in ctx.notes['skolem_keys']:
                ctx.assume(implies(o.has(k), D.has(k)))
            old = SDict('old_options', o.dom, D.val)
            D.update(o)
            state['after_set'] = D.snapshot()
            return old

        def on_yield(value):
            """the with-block: may do anything to the store, then completes or raises"""
            state['yielded'] = state.get('yielded', 0) + 1
            D.dom = z3.Array('dom_Dblock', I, B)
            D.val = z3.Array('val_Dblock', I, I)
            D.version += 1
            state['after_block'] = D.snapshot()
            state['version_after_block'] = D.version
            if truth(ctx.bool(ctx.fresh_name('block_raises'))):
                state['block_raised'] = True
                raise PyRaise(RuntimeError('raised inside the with block'))
            return None

        g = base_env(D)
        FST = SObj('FST', {})
        FST._set('set_options', set_options_stub, count=False)
        fstmod = SObj('fst', {})
        fstmod._set('FST', FST, count=False)
        g['fst'] = fstmod
        it = Interp(g)
        it.on_yield = on_yield
        dv = D.version
        raised = None
        try:
            call_env(it, loc, 'options', options=opts)
        except PyRaise as pr:
            raised = pr
        ctx.notes['outcome'] = 'raise' if raised else 'return'
        if 'yielded' not in state:
            ctx.prove(f'{pre}.enter_failed.no_write[{label}]', raised is not None and D.version == dv)
            return
        ctx.prove(f'{pre}.yields_once[{label}]', state['yielded'] == 1)
        ctx.prove(f'{pre}.sets_exactly_the_given_options[{label}]',
                  state['called_with'][0] is opts and not state['called_with'][1])
        ctx.prove(f'{pre}.exception_propagates[{label}]', bool(state.get('block_raised')) == (raised is not None))
        kz = ks.e
        Db = state['after_block']
        tag = 'restore_raise' if raised else 'restore_normal'
        restored = _wrap_bool(z3.Implies(z3.Select(opts.dom, kz),
                                         z3.And(z3.Select(D.dom, kz), z3.Select(D.val, kz) == z3.Select(D0.val, kz))))
        ctx.prove(f'{pre}.{tag}.managed_keys_restored[{label}]', restored)
        other = _wrap_bool(z3.Implies(z3.Not(z3.Select(opts.dom, kz)),
                                      z3.And(z3.Select(D.dom, kz) == z3.Select(Db.dom, kz),
                                             z3.Select(D.val, kz) == z3.Select(Db.val, kz))))
        ctx.prove(f'{pre}.{tag}.other_keys_not_written_by_exit[{label}]', other)

    # ---------------------------------------------------------------------------------------------------------------
    def run_get_option(ctx, case, loc, pre, label):
        D = SDict('D')
        opts = SDict('options')
        k = ctx.int('option')
        it = Interp(base_env(D))
        dv, ov = D.version, opts.version
        r = call_env(it, loc, 'get_option', option=k, options=opts)
        ctx.notes['outcome'] = 'return'
        if truth(opts.has(k)):
            ctx.prove(f'{pre}.per_call_value_wins[{label}]', eq(r, opts.value(k)))
        elif truth(D.has(k)):
            ctx.prove(f'{pre}.falls_back_to_thread_default[{label}]', eq(r, D.value(k)))
        else:
            ctx.prove(f'{pre}.unknown_is_None[{label}]', r is None)
        ctx.prove(f'{pre}.frame.no_write[{label}]', D.version == dv and opts.version == ov)

    def run_get_options(ctx, case, loc, pre, label):
        D = SDict('D')
        it = Interp(base_env(D))
        dv = D.version
        r = call_env(it, loc, 'get_options')
        ctx.notes['outcome'] = 'return'
        good = isinstance(r, SDict) and r is not D
        ctx.prove(f'{pre}.returns_fresh_copy[{label}]', good)
        if good:
            ctx.prove(f'{pre}.copy_equals_store[{label}]', r.same_as(D))
        ctx.prove(f'{pre}.frame.no_write[{label}]', D.version == dv)

    return [
        Fragment('fst_options:check_options', prop, 'check_options',
                 [dict(all=a, mark_checked=m) for a in (True, False) for m in (True, False)], run_check_options,
                 notes='for-all rule over options.items(); checkers are uninterpreted verdicts'),
        Fragment('fst_options:set_options', prop, 'set_options', [dict()], run_set_options, min_obligations=2,
                 notes='check_options replaced by its contract; dict comprehension by the for-all rule'),
        Fragment('fst_options:options', prop, 'options_cm', [dict()], run_options_cm, min_obligations=1,
                 notes='generator under @contextmanager: enter = code up to yield, exit = finally block on normal and '
                       'exceptional resumption; the with-block havocs the store'),
        Fragment('fst_options:get_option', prop, 'get_option', [dict()], run_get_option),
        Fragment('fst_options:get_options', prop, 'get_options', [dict()], run_get_options),
    ]


ALLOWED_STATE = {
    ('common', '_pyver_registry'): 'decorator registry filled at import time',
    ('fst_core', '_MODIFYING'): 'modification registry, keyed by root (proved under C12: only the entry of the root being edited is touched)',
    ('fst_misc', '_DUMP_IGNORE_FIELDS'): 'debug setter set_dump_ignore_fields()',
    ('fst_options', '_OPTIONS'): 'threading.local instance: per-thread by the documented contract of threading.local',
}
OPTION_WRITERS = {'set_options', 'options', '__init__'}


def footprint_structural(rep, prop='C20'):
    """C20.thread.footprint / C20.per_call (structural, over all of src/fst): the module-level mutable state written after
    import is exactly ALLOWED_STATE; _OPTIONS is an instance of a threading.local subclass and is never aliased at module
    level; the only writers of the option store are set_options / options / _ThreadOptions.__init__."""
    import ast
    import glob
    import os
    from pyvc import frontend
    MUT = {'update', 'append', 'add', 'clear', 'pop', 'setdefault', 'extend', 'remove', 'insert', 'discard', 'popitem',
           'sort', 'reverse', '__setitem__', '__delitem__'}
    found = {}

    def base_name(e):
        while isinstance(e, (ast.Attribute, ast.Subscript)):
            e = e.value
        return e.id if isinstance(e, ast.Name) else None
    for path in sorted(glob.glob(os.path.join(frontend.SRC, '*.py'))):
        mod = os.path.basename(path)[:-3]
        tree = frontend.module(mod).tree
        modnames = set()
        for n in tree.body:
            if isinstance(n, (ast.Assign, ast.AnnAssign, ast.AugAssign)):
                for t in ast.walk(n):
                    if isinstance(t, ast.Name) and isinstance(t.ctx, ast.Store):
                        modnames.add(t.id)
        for fn in ast.walk(tree):
            if not isinstance(fn, (ast.FunctionDef, ast.AsyncFunctionDef)):
                continue
            local, globs, alias = set(), set(), {}
            a = fn.args
            for x in a.posonlyargs + a.args + a.kwonlyargs + ([a.vararg] if a.vararg else []) + ([a.kwarg] if a.kwarg else []):
                local.add(x.arg)
            for n in ast.walk(fn):
                if isinstance(n, ast.Global):
                    globs.update(n.names)
                if isinstance(n, ast.Name) and isinstance(n.ctx, ast.Store):
                    local.add(n.id)
            local -= globs
            # local aliases of module-level objects:  v = MODNAME.attr / MODNAME[...] / MODNAME
            for n in ast.walk(fn):
                if isinstance(n, ast.Assign) and len(n.targets) == 1 and isinstance(n.targets[0], ast.Name):
                    b = base_name(n.value) if isinstance(n.value, (ast.Attribute, ast.Subscript, ast.Name)) else None
                    if b in modnames and b not in local:
                        alias[n.targets[0].id] = b

            def resolve(b):
                if b in alias:
                    return alias[b]
                return b if (b in modnames and b not in local) else None
            for n in ast.walk(fn):
                if isinstance(n, (ast.Assign, ast.AugAssign, ast.AnnAssign, ast.Delete)):
                    ts = n.targets if isinstance(n, (ast.Assign, ast.Delete)) else [n.target]
                    for t in ts:
                        for tt in (t.elts if isinstance(t, (ast.Tuple, ast.List)) else [t]):
                            if isinstance(tt, (ast.Subscript, ast.Attribute)):
                                b = resolve(base_name(tt))
                                if b:
                                    found.setdefault((mod, b), set()).add(fn.name)
                            elif isinstance(tt, ast.Name) and tt.id in globs:
                                found.setdefault((mod, tt.id), set()).add(fn.name)
                if isinstance(n, ast.Call) and isinstance(n.func, ast.Attribute) and n.func.attr in MUT:
                    b = resolve(base_name(n.func.value))
                    if b:
                        found.setdefault((mod, b), set()).add(fn.name)
        if mod == 'fst_options':
            # _OPTIONS = _ThreadOptions(), class _ThreadOptions(threading.local), no other module-level mention
            cls_ok = any(isinstance(n, ast.ClassDef) and n.name == '_ThreadOptions'
                         and any(ast.unparse(b) in ('threading.local', 'local') for b in n.bases) for n in tree.body)
            inst_ok = any(isinstance(n, ast.Assign) and ast.unparse(n.targets[0]) == '_OPTIONS'
                          and ast.unparse(n.value) == '_ThreadOptions()' for n in tree.body)
            rep.other('structural', f'{prop}.thread.store_is_threading_local', cls_ok and inst_ok,
                      detail='_OPTIONS = _ThreadOptions() and class _ThreadOptions(threading.local)',
                      key=f'{prop}.thread.store_is_threading_local')
            aliases = [n.lineno for n in tree.body if isinstance(n, (ast.Assign, ast.AnnAssign)) and n.value is not None
                       and any(isinstance(x, ast.Name) and x.id == '_OPTIONS' for x in ast.walk(n.value))]
            rep.other('structural', f'{prop}.thread.no_module_level_alias', not aliases,
                      detail=f'module-level statements that capture the importing thread\'s store: lines {aliases}',
                      key=f'{prop}.thread.no_module_level_alias',
                      replay={'lines': aliases, 'verifier_output': 'a module-level alias of _OPTIONS / _OPTIONS.__dict__ '
                              'binds the IMPORTING thread\'s dict for every thread'})
    for key, fns in sorted(found.items()):
        ok = key in ALLOWED_STATE
        rep.other('structural', f'{prop}.thread.footprint.{key[0]}.{key[1]}', ok,
                  detail=(ALLOWED_STATE.get(key) or 'module-level mutable state written after import that is not in the '
                          'allowed list') + f'; written by {sorted(fns)}',
                  key=f'{prop}.thread.footprint.{key[0]}.{key[1]}',
                  replay={'state': list(key), 'writers': sorted(fns), 'verifier_output': 'structural footprint scan'})
    w = found.get(('fst_options', '_OPTIONS'), set())
    rep.other('structural', f'{prop}.per_call.only_option_api_writes_the_store', w <= OPTION_WRITERS and 'set_options' in w,
              detail=f'functions writing _OPTIONS: {sorted(w)} (allowed: {sorted(OPTION_WRITERS)})',
              key=f'{prop}.per_call.writers')
    # the library itself changes the thread's option defaults only through the context manager, whose restore is in a
    # `finally` (proved in the options() contract): no call of set_options() outside fst_options.py, and every call of
    # options(...) is the context expression of a `with`
    bad = []
    n_with = 0
    for path in sorted(glob.glob(os.path.join(frontend.SRC, '*.py'))):
        mod = os.path.basename(path)[:-3]
        if mod == 'fst_options':
            continue
        tree = frontend.module(mod).tree
        with_exprs = {id(it.context_expr) for n in ast.walk(tree) if isinstance(n, (ast.With, ast.AsyncWith)) for it in n.items}
        for n in ast.walk(tree):
            if isinstance(n, ast.Call) and isinstance(n.func, (ast.Attribute, ast.Name)):
                nm = n.func.attr if isinstance(n.func, ast.Attribute) else n.func.id
                if nm == 'set_options':
                    bad.append(f'{mod}:{n.lineno} set_options(...)')
                elif nm == 'options' and isinstance(n.func, ast.Attribute) and ast.unparse(n.func.value) in ('FST', 'fst.FST'):
                    if id(n) in with_exprs:
                        n_with += 1
                    else:
                        bad.append(f'{mod}:{n.lineno} options(...) not used as a `with` context')
    rep.other('structural', f'{prop}.restore.library_changes_defaults_only_through_with_options', not bad,
              detail='; '.join(bad[:4]) or f'{n_with} internal use(s), all `with FST.options(...)`; no set_options() call outside '
              'the option API', key=f'{prop}.restore.library_with_options',
              replay={'problems': bad, 'verifier_output': 'a default changed by set_options() and restored by a second call is '
                      'not restored when the code in between raises'})
    missing = [k for k in ALLOWED_STATE if k not in found]
    if len(found) < 3:
        rep.checker_error(f'footprint scan found only {sorted(found)} (scan broken?)')
    rep.extra['footprint'] = {f'{k[0]}.{k[1]}': sorted(v) for k, v in found.items()}


# ---------------------------------------------------------------------------------------------------------------------
# finite: the per-option value screens (the uninterpreted `checkers` of the check_options contract) against the value
# table of the documentation - "unknown options or invalid values are rejected before anything is changed"

def finite_validators(payload):
    """native: every documented valid value is accepted and every listed invalid value is refused by the real screen,
    reached through check_options (so the table wiring _ALL_OPTION_CHECK_FUNCS is covered too)"""
    from fst.fst_options import check_options
    from contracts.b_options import _vals
    good, bad = _vals()
    out = {'checked': [], 'failures': []}
    for opt in sorted(set(good) | set(bad)):
        for kind, vals, want_ok in (('accepts_documented_values', good.get(opt, []), True),
                                    ('refuses_invalid_values', bad.get(opt, []), False)):
            key = f'check_opt.{opt}.{kind}'
            wrong = []
            for v in vals:
                try:
                    check_options({opt: v})
                    ok = True
                except ValueError:
                    ok = False
                except Exception as e:
                    ok = None
                    wrong.append((repr(v), repr(e)))
                    continue
                if ok != want_ok:
                    wrong.append((repr(v), 'accepted' if ok else 'refused'))
            out['checked'].append(key)
            if wrong:
                out['failures'].append({'key': key, 'what': f'option {opt!r}: {wrong[:4]}', 'replayed': True})
    try:
        check_options({'no_such_option': 1})
        out['failures'].append({'key': 'check_opt.unknown_option_refused', 'what': 'unknown option accepted', 'replayed': True})
    except ValueError:
        pass
    out['checked'].append('check_opt.unknown_option_refused')
    return out


def validators_finite(rep, prop='C20'):
    from pyvc import native, frontend

    class _S:
        name = 'finite-domain evaluation of the option value screens'
        notes = 'value table written from the documentation of FST.options() (contracts/b_options.py:_vals)'
    try:
        rep.function(frontend.locate('fst_options:_check_opt_pep8space'), _S)
    except Exception:
        pass
    r = native.run('k_options', 'finite_validators', {})
    failing = {f['key']: f for f in r['failures']}
    for k in r['checked']:
        f = failing.get(k)
        rep.other('finite', f'{prop}.{k}', f is None, detail=(f['what'] if f else None), key=f'{prop}.{k}',
                  replay=dict(f or {}, native_entry=('k_options', 'replay_validators')))
    if len(r['checked']) < 30:
        rep.checker_error('option value table shrank')


def replay_validators(payload):
    rep = payload.get('replay') or payload
    r = finite_validators({})
    key = rep.get('key', '')
    hit = [f for f in r['failures'] if key.endswith(f['key'])]
    return {'reproduced': bool(hit), 'failure': hit[:1]}
