"""C09 - replacing an operand never changes how the surrounding expression groups."""
from pyvc import native, frontend
from pyvc.contract import verify_all
from contracts import k_prec, k_bistr


def run(rep, tier, seed):
    for ident in ('astutil:precedence_require_parens_by_type', 'astutil:precedence_require_parens'):
        loc = frontend.locate(ident)

        class _S:
            name = 'finite-domain evaluation against CPython-judged requirement'
            notes = 'total, loop-free function over a finite domain: every point evaluated on the real function'
        rep.function(loc, _S)
    r = native.run('k_prec', 'finite_oracle', {})
    failing = {f['key']: f for f in r['failures']}
    for pt in r['checked']:
        key = f'C09.prec.sound[{pt}]'
        f = failing.get(key)
        if f is None:
            rep.other('finite', key, True, detail=None)
        else:
            rep.other('finite', key, False, detail=f['what'], key=key, replay=f)
    for key, f in failing.items():
        if key.split('[')[1][:-1] not in r['checked']:
            rep.other('finite', key, False, detail=f['what'], key=key, replay=f)
    if r['welltyped'] < 4000 or r['required'] < 500:
        rep.checker_error(f'precedence domain shrank: {r["welltyped"]} well-typed points, {r["required"]} requiring '
                          'parentheses (spec/CPython enumeration broken?)')
    t = native.run('k_prec', 'by_type_totality', {})
    rep.other('finite', 'C09.prec_by_type.total', t['n_bad'] == 0,
              detail=f'{t["evaluated"]} (child, slot, flags) points: returns a bool, never raises; bad={t["bad"]}')
    rep.extra['finite_domain'] = {k: r[k] for k in ('points', 'welltyped', 'required', 'over_parenthesised',
                                                    'distinct_type_triples')}
    rep.extra['finite_domain']['by_type_points'] = t['evaluated']
    rep.samples.extend(r['samples'][:3])
    rep.trusted.append('CPython 3.12 ast.parse is the definition of "parentheses required" at each (slot, child) '
                       'point; one representative source per child kind (the oracle depends on types and flags only)')
    # the parenthesisation decision tree of the put path, every combination of callee answers
    verify_all(rep, k_prec.decision_specs('C09'))
    # parentheses / delimiters are written next to a node and then the node's extent is moved over them: the byte / character
    # unit discipline of every such position write (a wrong unit shows only on lines with multi-byte text, on the NEXT edit)
    k_bistr.units_structural(rep, 'C09')
    sec = native.run('b_prec', 'main', {'tier': tier, 'seed': seed}, timeout=7200)
    sec['native_entry'] = ('b_prec', 'replay')
    rep.bounded(sec)
    rep.remainder = ('_is_atom / _is_enclosed_or_line / _is_enclosed_in_parents (text scanners): assumed answers in the decision '
                     'obligations, bounded put-path check only; the Lambda-inside-f-string branch of the decision and the '
                     'location / offset arithmetic of _make_exprlike_fst after the decision: bounded only')
