"""C01 - after any successful edit the source text still parses to exactly the live tree."""
from contracts import k_offset, k_indent, k_cache, k_bistr
from pyvc.contract import verify_all
from pyvc import native


def run(rep, tier, seed):
    # P: the splice/shift kernel every structured edit is built on (shared with C11)
    memo = [x for x in k_cache.specs('C01') if x.name in ('memo.pars', 'memo.loc', 'memo.bloc')]   # edits read these memos
    verify_all(rep, k_offset.specs('C01') + k_offset.specs_text('C01') + k_offset.specs_offset_lns('C01') +
               k_indent.specs('C01') + memo)
    k_cache.flush_structural(rep, 'C01')
    k_bistr.units_structural(rep, 'C01')   # AST column fields / offset deltas receive byte quantities by construction
    # B: runtime postcondition on the public edit API, ast.parse + own comparator as oracle
    ops = ['self', 'remove', 'donor', 'slice', 'seq', 'accessors', 'views', 'optional', 'move']
    sec = native.run('b_edit', 'main', {'props': ['C01'], 'tier': tier, 'seed': seed, 'ops': ops, 'norm': True})
    sec['native_entry'] = ('b_edit', 'replay')
    rep.bounded(sec)
    rep.remainder = ('that each of the ~300 per-node-type handlers chooses the right rectangle, text and AST: covered '
                     'by the bounded sweep only (a mutant inside a handler is caught only there)')
    rep.trusted.append('bounded part: CPython ast.parse is the oracle; scope = corpus programs x operation table')
    rep.assumptions.append('re-indentation kernel: indentation strings are ASCII (byte length == length); leading-blank '
                           'count and startswith(dedent) of an original line are uninterpreted functions of the line')
