"""C04 - formatting and comments outside the edited element are preserved byte for byte."""
from contracts import k_offset, k_indent, k_cache
from pyvc.contract import verify_all
from pyvc import native


def run(rep, tier, seed):
    # P: frame of the text kernel (every edit is a local splice): obligations put_src.frame.* and put_src.splice;
    #    frame of the re-indentation kernel: only lines of the given set change, and only their leading blanks
    #    (sequences of edits: the next edit splices where the tree says the element is, so the frame of a sequence also
    #    needs the position kernel - the per-node body of _offset against the declarative shift rule)
    verify_all(rep, [s for s in k_offset.specs_text('C04') if s.name == 'put_src'] + k_indent.specs('C04') +
               k_offset.specs('C04'))
    # text spliced without offsetting (comment accessor): the parents' cached extents must be flushed right after, or the
    # next edit of an enclosing block cuts at a stale end
    k_cache.flush_structural(rep, 'C04')
    sec = native.run('b_frame', 'trivia_classes', {'tier': tier}, timeout=3600)
    rep.bounded(sec)
    sec = native.run('b_frame', 'main', {'props': ['C04'], 'tier': tier, 'seed': seed}, timeout=7200)
    sec['native_entry'] = ('b_frame', 'replay')
    rep.bounded(sec)
    rep.remainder = ('trivia selection: leading_trivia exhaustively up to 5 (thorough 7) lines of line classes, trailing_trivia '
                     'only through the token-level frame check; separator / continuation repair and SrcEdit policy: bounded '
                     'token-level frame check only')
