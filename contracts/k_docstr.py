"""C08/P - the docstring encoder astutil.repr_str_multiline is the inverse of Python's string-literal decoder.

put_docstr() writes  repr_str_multiline(text)  as the source of the docstring statement and get_docstr() reads the value
CPython gives that literal, so "a docstring written through the accessor is read back unchanged, for any text" is the
round-trip law  literal_eval(repr_str_multiline(s)) == s  (plus: the result is ONE string literal token).

finite   every Unicode code point c (surrogates excluded) in 3 (thorough: 8) contexts around quotes and backslashes
bounded  every string of length <= 7 over the alphabet  { ", ', \\, newline, a, NUL, e-acute }  (the function's control
         flow depends only on quote runs, the last character and escaping classes) - exhaustive up to the bound"""
import ast
import itertools


def _ok(f, s):
    try:
        lit = f(s)
        node = ast.parse(lit, mode='eval').body
        return isinstance(node, ast.Constant) and node.value == s, lit
    except Exception as e:
        return False, repr(e)


CONTEXTS = ['{c}', 'a{c}', '{c}a', '"{c}', '{c}"', '"""{c}\'\'\'', '\\{c}', '{c}\\']


def finite_codepoints(payload):
    from fst.astutil import repr_str_multiline as f
    bad, n = [], 0
    contexts = CONTEXTS if payload.get('tier') == 'thorough' else CONTEXTS[:1] + CONTEXTS[3:4] + CONTEXTS[7:8]
    for cp in range(0x110000):
        if 0xD800 <= cp <= 0xDFFF:
            continue
        c = chr(cp)
        for ctxt in contexts:
            s = ctxt.replace('{c}', c)
            n += 1
            ok, lit = _ok(f, s)
            if not ok and len(bad) < 8:
                bad.append({'text': s, 'literal': lit})
    return {'evaluations': n, 'bad': bad}


ALPHABET = ['"', "'", '\\', '\n', 'a', '\x00', 'é']


def bounded_combinations(payload):
    from fst.astutil import repr_str_multiline as f
    k = 6 if payload.get('tier', 'quick') == 'quick' else 7
    bad, n = [], 0
    for ln in range(0, k + 1):
        for t in itertools.product(ALPHABET, repeat=ln):
            s = ''.join(t)
            n += 1
            ok, lit = _ok(f, s)
            if not ok and len(bad) < 10:
                bad.append({'key': f'C08.B.docstr_literal:{s!r}', 'what': f'repr_str_multiline({s!r}) = {lit!r} does not '
                            'evaluate back to the text', 'replayed': True})
    return {'name': 'C08.B.docstr_literal', 'evaluations': n, 'distinct_nontrivial': n,
            'rule': f'every string of length <= {k} over {ALPHABET!r}: literal_eval(repr_str_multiline(s)) == s',
            'scope': 'exhaustive up to the length bound', 'samples': [{'text': 'a"""\'\'\'', 'literal': f('a"""\'\'\'')}],
            'exhaustive': False, 'failures': bad, 'harness_errors': []}


def run(rep, prop='C08', tier='quick'):
    from pyvc import native, frontend

    class _S:
        name = 'round trip against CPython\'s literal decoder (finite: every code point x 8 contexts)'
        notes = 'pure function; the decoder is ast.parse (trusted)'
    rep.function(frontend.locate('astutil:repr_str_multiline'), _S)
    rep.function(frontend.locate('astutil:_escape_char'), _S)
    r = native.run('k_docstr', 'finite_codepoints', {'tier': tier}, timeout=3600)
    key = f'{prop}.docstr_literal.roundtrip_every_codepoint'
    rep.other('finite', key, not r['bad'],
              detail=(f'repr_str_multiline({r["bad"][0]["text"]!r}) = {r["bad"][0]["literal"]!r}' if r['bad'] else
                      f'{r["evaluations"]} strings'), key=key,
              replay={'failing': r['bad'], 'replayed': bool(r['bad']), 'native_entry': ('k_docstr', 'replay')})
    if r['evaluations'] < 3000000:
        rep.checker_error('docstring literal domain shrank')


def replay(payload):
    from fst.astutil import repr_str_multiline as f
    items = (payload.get('replay') or payload).get('failing') or []
    out = [{'text': i['text'], 'literal': f(i['text']), 'ok': _ok(f, i['text'])[0]} for i in items]
    return {'reproduced': any(not o['ok'] for o in out), 'now': out}
